import Postcard.Model.MaxSize
import Postcard.Model.Ser
import Postcard.Lemmas.Varint
import Postcard.Lemmas.Codec
import Postcard.Lemmas.RoundTrip
/-
  Postcard.Lemmas.MaxSize — helper lemmas for property C12
  (`POSTCARD_MAX_SIZE` is an upper bound, attained for the "tight" types).
-/
namespace Postcard

/-! ## A. exact length of a canonical varint -/

theorem log2_div128 {n : Nat} (h : 128 ≤ n) : (n / 128).log2 + 7 = n.log2 := by
  have hn : n ≠ 0 := by omega
  have h7 : 7 ≤ n.log2 := (Nat.le_log2 hn).2 (by simpa using h)
  obtain ⟨j, hj⟩ : ∃ j, n.log2 = j + 7 := ⟨n.log2 - 7, by omega⟩
  obtain ⟨h1, h2⟩ := (Nat.log2_eq_iff hn).1 hj
  have e1 : 2 ^ (j + 7) = 128 * 2 ^ j := by rw [Nat.pow_add]; omega
  have e2 : 2 ^ (j + 7 + 1) = 128 * 2 ^ (j + 1) := by
    rw [show j + 7 + 1 = (j + 1) + 7 by omega, Nat.pow_add]; omega
  rw [e1] at h1; rw [e2] at h2
  have hd : n / 128 ≠ 0 := by omega
  have : (n / 128).log2 = j := by
    rw [Nat.log2_eq_iff hd]
    generalize 2 ^ j = X at *
    generalize 2 ^ (j + 1) = Y at *
    omega
  omega

/-- the canonical varint of `n` has `⌊log₂ n / 7⌋ + 1` bytes. -/
theorem spec_varint_length (n : Nat) : (Spec.varint n).length = n.log2 / 7 + 1 := by
  induction n using Spec.varint.induct with
  | case1 n h =>
    rw [Spec.varint, if_pos h]
    by_cases h0 : n = 0
    · subst h0; simp [Nat.log2_zero]
    · have : n.log2 < 7 := (Nat.log2_lt h0).2 (by simpa using h)
      simp; omega
  | case2 n h ih =>
    rw [Spec.varint, if_neg h, List.length_cons, ih]
    have := log2_div128 (n := n) (by omega)
    omega

theorem log2_mono {a b : Nat} (h : a ≤ b) : a.log2 ≤ b.log2 := by
  by_cases ha : a = 0
  · subst ha; simp [Nat.log2_zero]
  · have hb : b ≠ 0 := by omega
    exact (Nat.le_log2 hb).2 (Nat.le_trans (Nat.log2_self_le ha) h)

theorem encVarint64_length {n : Nat} (h : n < 2 ^ 64) :
    (encVarint 64 n).length = n.log2 / 7 + 1 := by
  rw [encVarint_eq_spec widthOk64 h, spec_varint_length]

theorem encVarint32_length {n : Nat} (h : n < 2 ^ 32) :
    (encVarint 32 n).length = n.log2 / 7 + 1 := by
  rw [encVarint_eq_spec widthOk32 h, spec_varint_length]

theorem varintSize_eq (n : Nat) : varintSize n = n.log2 / 7 + 1 := by
  unfold varintSize bitLen
  by_cases h : n = 0
  · subst h; simp [Nat.log2_zero]
  · simp only [if_neg h]; omega

theorem varintSizeDiscriminant_eq {n : Nat} (h : n ≠ 0) :
    varintSizeDiscriminant n = n.log2 / 7 + 1 := by
  unfold varintSizeDiscriminant bitLen
  simp only [if_neg h]; omega

/-- `varint_size(N)` is exactly the length of the varint of `N` … -/
theorem encVarint64_length_eq_varintSize {n : Nat} (h : n < 2 ^ 64) :
    (encVarint 64 n).length = varintSize n := by
  rw [encVarint64_length h, varintSize_eq]

/-- … and therefore bounds the length prefix of every collection of at most `N` elements. -/
theorem encVarint64_length_le_varintSize {n N : Nat} (hn : n ≤ N) (hN : N < 2 ^ 64) :
    (encVarint 64 n).length ≤ varintSize N := by
  rw [encVarint64_length (by omega), varintSize_eq]
  have := log2_mono hn
  have := Nat.div_le_div_right (c := 7) this
  omega

/-- the derive's discriminant size, computed from the variant COUNT, bounds the
varint of every variant INDEX. -/
theorem encVarint32_length_le_discriminant {idx count : Nat} (hi : idx < count)
    (hc : count < 2 ^ 32) :
    (encVarint 32 idx).length ≤ varintSizeDiscriminant count := by
  rw [encVarint32_length (by omega), varintSizeDiscriminant_eq (by omega)]
  have := log2_mono (Nat.le_of_lt hi)
  have := Nat.div_le_div_right (c := 7) this
  omega

theorem encVarint_length_le (bits n : Nat) : (encVarint bits n).length ≤ varintMax bits :=
  encVarintLoop_length_le _ _

theorem encVarint_small {bits n : Nat} (hb : 1 ≤ varintMax bits) (h : n < 128) :
    (encVarint bits n).length = 1 := by
  unfold encVarint
  obtain ⟨k, hk⟩ : ∃ k, varintMax bits = k + 1 := ⟨varintMax bits - 1, by omega⟩
  rw [hk, encVarintLoop, if_pos h]; rfl

/-! ## B. arithmetic of the constant -/

theorem sumFrom_eq (acc : Nat) (ts : List MTy) : sumFrom acc ts = acc + sumFrom 0 ts := by
  induction ts generalizing acc with
  | nil => simp [sumFrom]
  | cons t ts ih =>
    simp only [sumFrom]
    rw [ih (acc + maxSize t), ih (0 + maxSize t)]
    omega

theorem sumFrom_cons (t : MTy) (ts : List MTy) :
    sumFrom 0 (t :: ts) = maxSize t + sumFrom 0 ts := by
  simp only [sumFrom]; rw [sumFrom_eq]; omega

theorem tupleSum_eq (ts : List MTy) : tupleSum ts = sumFrom 0 ts := by
  cases ts with
  | nil => simp [tupleSum, sumFrom]
  | cons t ts => rw [tupleSum, sumFrom_cons, sumFrom_eq]

theorem rmax_ge_left (a b : Nat) : a ≤ rmax a b := by unfold rmax; split <;> omega
theorem rmax_ge_right (a b : Nat) : b ≤ rmax a b := by unfold rmax; split <;> omega
theorem rmax_eq (a b : Nat) : rmax a b = max a b := by unfold rmax; split <;> omega

theorem maxVariants_ge_acc (acc : Nat) (fs : List DFields) : acc ≤ maxVariants acc fs := by
  induction fs generalizing acc with
  | nil => simp [maxVariants]
  | cons f fs ih =>
    simp only [maxVariants]
    exact Nat.le_trans (rmax_ge_left _ _) (ih _)

theorem maxVariants_ge_head (acc : Nat) (f : DFields) (fs : List DFields) :
    DFields.sum f ≤ maxVariants acc (f :: fs) := by
  simp only [maxVariants]
  exact Nat.le_trans (rmax_ge_right _ _) (maxVariants_ge_acc _ _)

/-! ## C. encoded length of lists -/

theorem encList_length_le_mul (B : Nat) (vs : List Val)
    (h : ∀ v ∈ vs, (enc v).length ≤ B) : (encList vs).length ≤ B * vs.length := by
  induction vs with
  | nil => simp [encList]
  | cons v vs ih =>
    have h1 := h v (by simp)
    have h2 := ih (fun v hv => h v (by simp [hv]))
    simp only [encList, List.length_append, List.length_cons, Nat.mul_succ]
    omega

theorem encList_replicate_length (v : Val) (n : Nat) :
    (encList (List.replicate n v)).length = (enc v).length * n := by
  induction n with
  | zero => simp [encList]
  | succ n ih => simp [List.replicate_succ, encList, ih, Nat.mul_succ]; omega

/-! ## D. leaf types -/

theorem intMaxSize_bound (w : IntW) (n : Nat) : (enc (.u w n)).length ≤ intMaxSize w := by
  cases w <;> simp only [enc, intMaxSize] <;> first | simp | exact encVarint_length_le _ _

theorem intMaxSize_bound_i (w : IntW) (x : Int) : (enc (.i w x)).length ≤ intMaxSize w := by
  cases w <;> simp only [enc, intMaxSize] <;> first | simp | exact encVarint_length_le _ _

theorem int_sound (s : Bool) (w : IntW) (nz : Bool) (v : Val) (h : intInhabits s w nz v = true) :
    (enc v).length ≤ intMaxSize w := by
  cases v <;> simp [intInhabits] at h
  case u w' n => obtain ⟨⟨⟨_, rfl⟩, _⟩, _⟩ := h; exact intMaxSize_bound _ _
  case i w' x => obtain ⟨⟨⟨_, rfl⟩, _⟩, _⟩ := h; exact intMaxSize_bound_i _ _

theorem intMaxSize_w64 : intMaxSize .w64 = varintMax 64 := rfl

theorem char_sound (c : Nat) : (enc (.char c)).length ≤ 5 := by
  have h1 := utf8Encode_length_le c
  have h2 := encVarint_small (bits := 64) (n := (utf8Encode c).length) (by decide) (by omega)
  simp only [enc, List.length_append]
  omega

/-! ## E. soundness: mutual structural induction over `MTy` / `DFields` -/

theorem all_inhabits {t : MTy} {vs : List Val} (h : vs.all (fun v => t.inhabits v) = true) :
    ∀ v ∈ vs, t.inhabits v = true := by
  simpa using h

mutual
theorem sound_ty : (m : MTy) → (v : Val) → m.wf = true → m.inhabits v = true →
    (enc v).length ≤ maxSize m
  | .bool, v, _, h => by
    cases v <;> simp [MTy.inhabits] at h
    simp [enc, maxSize]
  | .int s w, v, _, h => by
    simp only [MTy.inhabits] at h
    simpa [maxSize] using int_sound s w false v h
  | .usize, v, _, h => by
    simp only [MTy.inhabits] at h
    simpa [maxSize, intMaxSize, IntW.bits] using int_sound _ _ _ v h
  | .isize, v, _, h => by
    simp only [MTy.inhabits] at h
    simpa [maxSize, intMaxSize, IntW.bits] using int_sound _ _ _ v h
  | .nonZero s w, v, _, h => by
    simp only [MTy.inhabits] at h
    simpa [maxSize] using int_sound s w true v h
  | .nonZeroUsize, v, _, h => by
    simp only [MTy.inhabits] at h
    simpa [maxSize, intMaxSize, IntW.bits] using int_sound _ _ _ v h
  | .nonZeroIsize, v, _, h => by
    simp only [MTy.inhabits] at h
    simpa [maxSize, intMaxSize, IntW.bits] using int_sound _ _ _ v h
  | .f32, v, _, h => by
    cases v <;> simp [MTy.inhabits] at h
    simp [enc, maxSize, leBytes_length]
  | .f64, v, _, h => by
    cases v <;> simp [MTy.inhabits] at h
    simp [enc, maxSize, leBytes_length]
  | .char, v, _, h => by
    cases v <;> simp [MTy.inhabits] at h
    simpa [maxSize] using char_sound _
  | .unit, v, _, h => by
    cases v <;> simp [MTy.inhabits] at h
    simp [enc]
  | .phantom, v, _, h => by
    cases v <;> simp [MTy.inhabits] at h
    simp [enc]
  | .option t, v, hw, h => by
    simp only [MTy.wf] at hw
    cases v <;> simp [MTy.inhabits] at h
    case none => simp [enc, maxSize]
    case some v =>
      have := sound_ty t v hw h
      simp only [enc, maxSize, List.length_cons]; omega
  | .result t e, v, hw, h => by
    simp [MTy.wf] at hw
    have hl := rmax_ge_left (maxSize t) (maxSize e)
    have hr := rmax_ge_right (maxSize t) (maxSize e)
    match v, h with
    | .newtypeVariant 0 v, h =>
      simp only [MTy.inhabits] at h
      have := sound_ty t v hw.1 h
      have h1 := encVarint_small (bits := 32) (n := 0) (by decide) (by decide)
      simp only [enc, maxSize, List.length_append]; omega
    | .newtypeVariant 1 v, h =>
      simp only [MTy.inhabits] at h
      have := sound_ty e v hw.2 h
      have h1 := encVarint_small (bits := 32) (n := 1) (by decide) (by decide)
      simp only [enc, maxSize, List.length_append]; omega
  | .array t n, v, hw, h => by
    simp [MTy.wf] at hw
    cases v <;> simp [MTy.inhabits] at h
    case tuple vs =>
      obtain ⟨hall, rfl⟩ := h
      have := encList_length_le_mul (maxSize t) vs (fun v hv => sound_ty t v hw.1 (hall v hv))
      simpa [enc, maxSize] using this
  | .tuple ts, v, hw, h => by
    simp only [MTy.wf] at hw
    cases v <;> simp [MTy.inhabits] at h
    case tuple vs =>
      have := sound_list ts vs hw h
      simpa [enc, maxSize, tupleSum_eq] using this
  | .range t, v, hw, h => by
    simp only [MTy.wf] at hw
    match v, h with
    | .struct [a, b], h =>
      simp [MTy.inhabits] at h
      have h1 := sound_ty t a hw h.1
      have h2 := sound_ty t b hw h.2
      simp only [enc, encList, maxSize, List.length_append, List.length_nil]; omega
  | .rangeInclusive t, v, hw, h => by
    simp only [MTy.wf] at hw
    match v, h with
    | .struct [a, b], h =>
      simp [MTy.inhabits] at h
      have h1 := sound_ty t a hw h.1
      have h2 := sound_ty t b hw h.2
      simp only [enc, encList, maxSize, List.length_append, List.length_nil]; omega
  | .rangeFrom t, v, hw, h => by
    simp only [MTy.wf] at hw
    match v, h with
    | .struct [a], h =>
      simp only [MTy.inhabits] at h
      have h1 := sound_ty t a hw h
      simp only [enc, encList, maxSize, List.length_append, List.length_nil]; omega
  | .rangeTo t, v, hw, h => by
    simp only [MTy.wf] at hw
    match v, h with
    | .struct [a], h =>
      simp only [MTy.inhabits] at h
      have h1 := sound_ty t a hw h
      simp only [enc, encList, maxSize, List.length_append, List.length_nil]; omega
  | .ref t, v, hw, h => by
    simp only [MTy.wf] at hw
    simp only [MTy.inhabits] at h
    simpa [maxSize] using sound_ty t v hw h
  | .hvec t n, v, hw, h => by
    simp [MTy.wf] at hw
    cases v <;> simp [MTy.inhabits] at h
    case seq vs =>
      obtain ⟨hall, hlen⟩ := h
      have h1 := encList_length_le_mul (maxSize t) vs (fun v hv => sound_ty t v hw.1 (hall v hv))
      have h2 := encVarint64_length_le_varintSize hlen hw.2
      have h3 : maxSize t * vs.length ≤ maxSize t * n := Nat.mul_le_mul_left _ hlen
      simp only [enc, maxSize, List.length_append]; omega
  | .hstring n, v, hw, h => by
    simp [MTy.wf] at hw
    cases v <;> simp [MTy.inhabits] at h
    case str s =>
      have h2 := encVarint64_length_le_varintSize h.2 hw
      simp only [enc, maxSize, List.length_append]; omega
  | .dstruct f, v, hw, h => by
    simp only [MTy.wf] at hw
    simp only [MTy.inhabits] at h
    simpa [maxSize] using sound_struct f v hw h
  | .denum fs, v, hw, h => by
    simp [MTy.wf] at hw
    simp only [MTy.inhabits] at h
    split at h
    · rename_i idx hidx
      simp at h
      obtain ⟨hlt, idx', hidx', hb⟩ := sound_enum fs idx v hw.2 h.2
      rw [hidx] at hidx'
      cases hidx'
      have := hb 0
      have := encVarint32_length_le_discriminant hlt hw.1
      simp only [maxSize]; omega
    · simp at h
theorem sound_list : (ts : List MTy) → (vs : List Val) → wfList ts = true →
    inhabitsList ts vs = true → (encList vs).length ≤ sumFrom 0 ts
  | [], vs, _, h => by
    cases vs <;> simp [inhabitsList] at h
    simp [encList]
  | t :: ts, vs, hw, h => by
    simp [wfList] at hw
    cases vs <;> simp [inhabitsList] at h
    case cons v vs =>
      have h1 := sound_ty t v hw.1 h.1
      have h2 := sound_list ts vs hw.2 h.2
      rw [sumFrom_cons]
      simp only [encList, List.length_append]; omega
theorem sound_struct : (f : DFields) → (v : Val) → DFields.wf f = true →
    DFields.inhabitsStruct f v = true → (enc v).length ≤ DFields.sum f
  | .unit, v, _, h => by
    cases v <;> simp [DFields.inhabitsStruct] at h
    simp [enc]
  | .unnamed ts, v, hw, h => by
    simp only [DFields.wf] at hw
    cases v <;> simp [DFields.inhabitsStruct] at h
    case newtypeStruct v =>
      have := sound_list ts [v] hw h.2
      simpa [enc, encList, DFields.sum] using this
    case tupleStruct vs =>
      have := sound_list ts vs hw h.2
      simpa [enc, DFields.sum] using this
  | .named ts, v, hw, h => by
    simp only [DFields.wf] at hw
    cases v <;> simp [DFields.inhabitsStruct] at h
    case struct vs =>
      have := sound_list ts vs hw h
      simpa [enc, DFields.sum] using this
theorem sound_variant : (f : DFields) → (v : Val) → DFields.wf f = true →
    DFields.inhabitsVariant f v = true →
    ∃ idx, v.variantIdx? = some idx ∧ (enc v).length ≤ (encVarint 32 idx).length + DFields.sum f
  | .unit, v, _, h => by
    cases v <;> simp [DFields.inhabitsVariant] at h
    case unitVariant idx => exact ⟨idx, rfl, by simp [enc]⟩
  | .unnamed ts, v, hw, h => by
    simp only [DFields.wf] at hw
    cases v <;> simp [DFields.inhabitsVariant] at h
    case newtypeVariant idx v =>
      have := sound_list ts [v] hw h.2
      refine ⟨idx, rfl, ?_⟩
      simp only [encList, List.append_nil] at this
      simp only [enc, DFields.sum, List.length_append]; omega
    case tupleVariant idx vs =>
      have := sound_list ts vs hw h.2
      refine ⟨idx, rfl, ?_⟩
      simp only [enc, DFields.sum, List.length_append]; omega
  | .named ts, v, hw, h => by
    simp only [DFields.wf] at hw
    cases v <;> simp [DFields.inhabitsVariant] at h
    case structVariant idx vs =>
      have := sound_list ts vs hw h
      refine ⟨idx, rfl, ?_⟩
      simp only [enc, DFields.sum, List.length_append]; omega
theorem sound_enum : (fs : List DFields) → (k : Nat) → (v : Val) → wfVariants fs = true →
    inhabitsEnum fs k v = true →
    k < fs.length ∧ ∃ idx, v.variantIdx? = some idx ∧
      ∀ acc, (enc v).length ≤ (encVarint 32 idx).length + maxVariants acc fs
  | [], k, v, _, h => by simp [inhabitsEnum] at h
  | f :: fs, 0, v, hw, h => by
    simp [wfVariants] at hw
    simp only [inhabitsEnum] at h
    obtain ⟨idx, hi, hb⟩ := sound_variant f v hw.1 h
    refine ⟨by simp, idx, hi, fun acc => ?_⟩
    have := maxVariants_ge_head acc f fs
    omega
  | f :: fs, k + 1, v, hw, h => by
    simp [wfVariants] at hw
    simp only [inhabitsEnum] at h
    obtain ⟨hk, idx, hi, hb⟩ := sound_enum fs k v hw.2 h
    refine ⟨by simp; omega, idx, hi, fun acc => ?_⟩
    simp only [maxVariants]
    exact hb _
end

/-! ## F. tightness: an explicit value that attains the bound -/

/-- the extreme value of `uN` / `iN` (and of `NonZero*`: it is not 0):
`uN::MAX`, whose varint is all ones, resp. `iN::MIN`, whose zig-zag is `uN::MAX`. -/
def intWitness (signed : Bool) (w : IntW) : Val :=
  if signed then .i w (-(2 ^ (w.bits - 1) : Int)) else .u w (2 ^ w.bits - 1)

mutual
/-- a value of type `m` whose encoding has `POSTCARD_MAX_SIZE` bytes (for tight `m`). -/
def maxWitness : MTy → Val
  | .bool => .bool true
  | .int s w => intWitness s w
  | .usize => intWitness false .w64
  | .isize => intWitness true .w64
  | .nonZero s w => intWitness s w
  | .nonZeroUsize => intWitness false .w64
  | .nonZeroIsize => intWitness true .w64
  | .f32 => .f32 0
  | .f64 => .f64 0
  | .char => .char 0x10000                       -- four UTF-8 bytes + length byte
  | .unit => .unit
  | .phantom => .unitStruct
  | .option t => .some (maxWitness t)
  | .result t e =>
    if maxSize t > maxSize e then .newtypeVariant 0 (maxWitness t)
    else .newtypeVariant 1 (maxWitness e)
  | .array t n => .tuple (List.replicate n (maxWitness t))
  | .tuple ts => .tuple (maxWitnessList ts)
  | .range t => .struct [maxWitness t, maxWitness t]
  | .rangeInclusive t => .struct [maxWitness t, maxWitness t]
  | .rangeFrom t => .struct [maxWitness t]
  | .rangeTo t => .struct [maxWitness t]
  | .ref t => maxWitness t
  | .hvec t n => .seq (List.replicate n (maxWitness t))     -- full vector
  | .hstring n => .str (List.replicate n 0x41)              -- "AAA…A", full string
  | .dstruct f => DFields.structWitness f
  | .denum _ => .unit                                       -- not tight; never used
def maxWitnessList : List MTy → List Val
  | [] => []
  | t :: ts => maxWitness t :: maxWitnessList ts
def DFields.structWitness : DFields → Val
  | .unit => .unitStruct
  | .unnamed ts =>
    if ts.length = 1 then .newtypeStruct ((maxWitnessList ts).headD .unit)
    else .tupleStruct (maxWitnessList ts)
  | .named ts => .struct (maxWitnessList ts)
end

mutual
/-- the types for which C12 claims the maximum is attained: integers (incl.
`usize`/`isize`/`NonZero*`), floats, `bool`, `char`, `()`, `PhantomData`,
arrays, tuples, options, references/boxes, ranges, fixed-capacity
`heapless::Vec`/`String`, and derived structs — each over tight components.
(`Result<T,E>` over tight `T`, `E` is tight as well and is included.)
Derived enums are NOT: see `denum128_not_tight` in Props/C12. -/
def MTy.tight : MTy → Bool
  | .option t => t.tight
  | .result t e => t.tight && e.tight
  | .array t _ => t.tight
  | .tuple ts => tightList ts
  | .range t => t.tight
  | .rangeInclusive t => t.tight
  | .rangeFrom t => t.tight
  | .rangeTo t => t.tight
  | .ref t => t.tight
  | .hvec t _ => t.tight
  | .dstruct f => DFields.tight f
  | .denum _ => false
  | _ => true
def tightList : List MTy → Bool
  | [] => true
  | t :: ts => t.tight && tightList ts
def DFields.tight : DFields → Bool
  | .unit => true
  | .unnamed ts => tightList ts
  | .named ts => tightList ts
end

theorem intWitness_spec (s : Bool) (w : IntW) (nz : Bool) :
    intInhabits s w nz (intWitness s w) = true ∧
    (enc (intWitness s w)).length = intMaxSize w := by
  cases s <;> cases w <;> cases nz <;> decide

theorem utf8Valid_replicate_ascii (n : Nat) : utf8Valid (List.replicate n (0x41 : Byte)) = true := by
  induction n with
  | zero => rfl
  | succ n ih =>
    rw [List.replicate_succ]
    rw [utf8Valid_of_next (c := 0x41) (rest := List.replicate n 0x41) (by simp [utf8Next])]
    exact ih

theorem encList_singleton (v : Val) : encList [v] = enc v := by simp [encList]

mutual
theorem tight_ty : (m : MTy) → m.tight = true → m.wf = true →
    m.inhabits (maxWitness m) = true ∧ (enc (maxWitness m)).length = maxSize m
  | .bool, _, _ => by decide
  | .int s w, _, _ => by
    simpa [MTy.inhabits, maxWitness, maxSize] using intWitness_spec s w false
  | .usize, _, _ => by decide
  | .isize, _, _ => by decide
  | .nonZero s w, _, _ => by
    simpa [MTy.inhabits, maxWitness, maxSize] using intWitness_spec s w true
  | .nonZeroUsize, _, _ => by decide
  | .nonZeroIsize, _, _ => by decide
  | .f32, _, _ => by decide
  | .f64, _, _ => by decide
  | .char, _, _ => by decide
  | .unit, _, _ => by decide
  | .phantom, _, _ => by decide
  | .option t, ht, hw => by
    simp only [MTy.tight] at ht
    simp only [MTy.wf] at hw
    obtain ⟨h1, h2⟩ := tight_ty t ht hw
    simp [MTy.inhabits, maxWitness, maxSize, enc, h1, h2]
  | .result t e, ht, hw => by
    simp [MTy.tight] at ht
    simp [MTy.wf] at hw
    obtain ⟨h1, h2⟩ := tight_ty t ht.1 hw.1
    obtain ⟨h3, h4⟩ := tight_ty e ht.2 hw.2
    have e0 := encVarint_small (bits := 32) (n := 0) (by decide) (by decide)
    have e1 := encVarint_small (bits := 32) (n := 1) (by decide) (by decide)
    simp only [maxWitness, maxSize, rmax]
    split
    · exact ⟨by simp only [MTy.inhabits, h1],
        by simp only [enc, List.length_append, h2, e0]; omega⟩
    · exact ⟨by simp only [MTy.inhabits, h3],
        by simp only [enc, List.length_append, h4, e1]; omega⟩
  | .array t n, ht, hw => by
    simp only [MTy.tight] at ht
    simp [MTy.wf] at hw
    obtain ⟨h1, h2⟩ := tight_ty t ht hw.1
    simp [MTy.inhabits, maxWitness, maxSize, enc, encList_replicate_length, h1, h2]
  | .tuple ts, ht, hw => by
    simp only [MTy.tight] at ht
    simp only [MTy.wf] at hw
    obtain ⟨h1, h2⟩ := tight_list ts ht hw
    simp [MTy.inhabits, maxWitness, maxSize, enc, tupleSum_eq, h1, h2]
  | .range t, ht, hw => by
    simp only [MTy.tight] at ht
    simp only [MTy.wf] at hw
    obtain ⟨h1, h2⟩ := tight_ty t ht hw
    simp [MTy.inhabits, maxWitness, maxSize, enc, encList, h1, h2]; omega
  | .rangeInclusive t, ht, hw => by
    simp only [MTy.tight] at ht
    simp only [MTy.wf] at hw
    obtain ⟨h1, h2⟩ := tight_ty t ht hw
    simp [MTy.inhabits, maxWitness, maxSize, enc, encList, h1, h2]; omega
  | .rangeFrom t, ht, hw => by
    simp only [MTy.tight] at ht
    simp only [MTy.wf] at hw
    obtain ⟨h1, h2⟩ := tight_ty t ht hw
    simp [MTy.inhabits, maxWitness, maxSize, enc, encList, h1, h2]
  | .rangeTo t, ht, hw => by
    simp only [MTy.tight] at ht
    simp only [MTy.wf] at hw
    obtain ⟨h1, h2⟩ := tight_ty t ht hw
    simp [MTy.inhabits, maxWitness, maxSize, enc, encList, h1, h2]
  | .ref t, ht, hw => by
    simp only [MTy.tight] at ht
    simp only [MTy.wf] at hw
    simpa [MTy.inhabits, maxWitness, maxSize] using tight_ty t ht hw
  | .hvec t n, ht, hw => by
    simp only [MTy.tight] at ht
    simp [MTy.wf] at hw
    obtain ⟨h1, h2⟩ := tight_ty t ht hw.1
    have h3 := encVarint64_length_eq_varintSize hw.2
    simp [MTy.inhabits, maxWitness, maxSize, enc, encList_replicate_length, h1, h2, h3]
    omega
  | .hstring n, _, hw => by
    simp [MTy.wf] at hw
    have h3 := encVarint64_length_eq_varintSize hw
    simp [MTy.inhabits, maxWitness, maxSize, enc, utf8Valid_replicate_ascii, h3]
    omega
  | .dstruct f, ht, hw => by
    simp only [MTy.tight] at ht
    simp only [MTy.wf] at hw
    simpa [MTy.inhabits, maxWitness, maxSize] using tight_struct f ht hw
  | .denum _, ht, _ => by simp [MTy.tight] at ht
theorem tight_list : (ts : List MTy) → tightList ts = true → wfList ts = true →
    inhabitsList ts (maxWitnessList ts) = true ∧
    (encList (maxWitnessList ts)).length = sumFrom 0 ts
  | [], _, _ => by simp [inhabitsList, maxWitnessList, encList, sumFrom]
  | t :: ts, ht, hw => by
    simp [tightList] at ht
    simp [wfList] at hw
    obtain ⟨h1, h2⟩ := tight_ty t ht.1 hw.1
    obtain ⟨h3, h4⟩ := tight_list ts ht.2 hw.2
    rw [sumFrom_cons]
    simp [inhabitsList, maxWitnessList, encList, h1, h2, h3, h4]
theorem tight_struct : (f : DFields) → DFields.tight f = true → DFields.wf f = true →
    DFields.inhabitsStruct f (DFields.structWitness f) = true ∧
    (enc (DFields.structWitness f)).length = DFields.sum f
  | .unit, _, _ => by decide
  | .unnamed ts, ht, hw => by
    simp only [DFields.tight] at ht
    simp only [DFields.wf] at hw
    obtain ⟨h1, h2⟩ := tight_list ts ht hw
    simp only [DFields.structWitness, DFields.sum]
    split
    · rename_i hlen
      match ts, hlen, h1, h2 with
      | [t], _, h1, h2 =>
        simp only [maxWitnessList, encList_singleton] at h1 h2
        simp [maxWitnessList, DFields.inhabitsStruct, enc, h1, h2]
    · rename_i hlen
      simp [DFields.inhabitsStruct, enc, h1, h2, hlen]
  | .named ts, ht, hw => by
    simp only [DFields.tight] at ht
    simp only [DFields.wf] at hw
    obtain ⟨h1, h2⟩ := tight_list ts ht hw
    simp [DFields.structWitness, DFields.sum, DFields.inhabitsStruct, enc, h1, h2]
end

end Postcard
