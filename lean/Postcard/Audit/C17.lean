import Postcard.Props.C17
-- property theorems of C17: every one must depend only on propext / Classical.choice / Quot.sound
#print axioms Postcard.dyn_ser_agrees
#print axioms Postcard.dyn_de_agrees
#print axioms Postcard.fromSliceDyn_agrees
#print axioms Postcard.toStdvecDyn_agrees
#print axioms Postcard.schemaOfJson_jsonOfSchema
#print axioms Postcard.Dyn.dynVarint_eq
#print axioms Postcard.Dyn.dynZigzag_eq
#print axioms Postcard.Dyn.dynUnzigzag_eq
#print axioms Postcard.Dyn.dynTakeVarint_eq
