import Postcard.Props.C20
-- property theorems of C20: every one must depend only on propext / Classical.choice / Quot.sound
#print axioms Postcard.crcSer_over_any
#print axioms Postcard.stack_composes
#print axioms Postcard.plain_composes
#print axioms Postcard.crc_over
#print axioms Postcard.crc_over_lawful
#print axioms Postcard.crc_over_entry
#print axioms Postcard.cobs_over
#print axioms Postcard.cobs_over_lawful
#print axioms Postcard.crc_then_cobs
#print axioms Postcard.crc_then_cobs_run
#print axioms Postcard.crc_then_cobs_alloc
#print axioms Postcard.crc_then_cobs_hvec
#print axioms Postcard.crc_then_cobs_slice
#print axioms Postcard.crc_then_cobs_slice_bound
#print axioms Postcard.crc_then_cobs_eq_composition
#print axioms Postcard.unstack
#print axioms Postcard.stack_roundtrip
#print axioms Postcard.user_flavor_sees_plain_stack
#print axioms Postcard.user_flavor_sees_plain
