import Postcard.Props.C04
import Postcard.Props.C04Scratch
import Postcard.Props.C01EnumAt
-- property theorems of C04: every one must depend only on propext / Classical.choice / Quot.sound
#print axioms Postcard.dec_total
#print axioms Postcard.dec_no_foreign_error
#print axioms Postcard.dec_outcome
#print axioms Postcard.dec_consumes_prefix
#print axioms Postcard.dec_rest_length_le
#print axioms Postcard.dec_reads_only_prefix
#print axioms Postcard.borrow_position_str
#print axioms Postcard.borrow_position_bytes
#print axioms Postcard.tuple_component_position
#print axioms Postcard.borrow_position_tuple
#print axioms Postcard.wont_implement
#print axioms Postcard.hint_le_remaining
#print axioms Postcard.prealloc_bound
#print axioms Postcard.prealloc_bytes_le
#print axioms Postcard.dec_minBytes
#print axioms Postcard.elements_lt_consumed
#print axioms Postcard.elements_le_bytes
#print axioms Postcard.pairs_le_bytes
#print axioms Postcard.str_payload_le
#print axioms Postcard.bytes_payload_le
#print axioms Postcard.SBuf.inv_run
#print axioms Postcard.scratch_history_safe
#print axioms Postcard.take_refused_unchanged
#print axioms Postcard.take_read_failed_keeps_slot
#print axioms Postcard.decEnumAt_ok_iff
#print axioms Postcard.decEnumAt_total
