import Postcard.Props.C10
import Postcard.Props.EndToEnd
import Postcard.Props.C10Flavor
-- property theorems of C10: every one must depend only on propext / Classical.choice / Quot.sound
#print axioms Postcard.crc_frame
#print axioms Postcard.crc_frame_serialize
#print axioms Postcard.crc_frame_logged
#print axioms Postcard.crc_roundtrip
#print axioms Postcard.crc_roundtrip_fromBytes
#print axioms Postcard.crc_sound
#print axioms Postcard.checksum_corruption_rejected
#print axioms Postcard.checksum_corruption_rejected'
#print axioms Postcard.burst_detected_bits
#print axioms Postcard.burst_detected
#print axioms Postcard.window_detected
#print axioms Postcard.bitflip_detected
#print axioms Postcard.payload_burst_rejected
#print axioms Postcard.payload_bitflip_rejected
#print axioms Postcard.crc_roundtrip_dec
#print axioms Postcard.crc_sound_dec
#print axioms Postcard.checksum_corruption_rejected_dec
#print axioms Postcard.checksum_corruption_rejected_enc
#print axioms Postcard.payload_burst_rejected_dec
#print axioms Postcard.payload_burst_rejected_enc
#print axioms Postcard.to_slice_crc_then_from_bytes_crc
#print axioms Postcard.to_hvec_crc_then_from_bytes_crc
#print axioms Postcard.CrcDe.sim
#print axioms Postcard.crcDe_digest_covers_consumed
#print axioms Postcard.takeFromBytesCrcG_eq
#print axioms Postcard.fromBytesCrcG_eq
#print axioms Postcard.crc_sound_flavor
