import Postcard.Props.C16
-- property theorems of C16: every one must depend only on propext / Classical.choice / Quot.sound
#print axioms Postcard.hashers_agree
#print axioms Postcard.hash_eq_spec
#print axioms Postcard.hash_eq_spec_owned
#print axioms Postcard.hashSdmType_eq_stream
#print axioms Postcard.type_name_irrelevant_struct
#print axioms Postcard.type_name_irrelevant_enum
#print axioms Postcard.type_name_irrelevant
#print axioms Postcard.type_name_irrelevant_in_context
#print axioms Postcard.fnv_step_injective
#print axioms Postcard.single_byte_sensitive
#print axioms Postcard.single_byte_sensitive_digest
#print axioms Postcard.key_ne_of_stream_diff1
#print axioms Postcard.path_byte_sensitive
#print axioms Postcard.tags_pairwise_distinct
#print axioms Postcard.leaf_kind_sensitive
#print axioms Postcard.field_name_byte_sensitive
#print axioms Postcard.variant_name_byte_sensitive
#print axioms Postcard.variant_field_name_byte_sensitive
#print axioms Postcard.swap_fields_stream_ne
#print axioms Postcard.swap_variants_stream_ne
#print axioms Postcard.path_change_stream_ne
#print axioms Postcard.key_sensitive_partial
#print axioms Postcard.key_collision_name_framing
#print axioms Postcard.stream_collision_tuple_framing
#print axioms Postcard.stream_collision_field_order
#print axioms Postcard.tags_agree
