import Postcard.Props.C09
-- property theorems of C09: every one must depend only on propext / Classical.choice / Quot.sound
#print axioms Postcard.idx_le_n
#print axioms Postcard.idx_le_n_drain
#print axioms Postcard.run_inv
#print axioms Postcard.feed_total
#print axioms Postcard.run_total
#print axioms Postcard.reset_after_zero_feed
#print axioms Postcard.run_resync
#print axioms Postcard.reset_after_zero
#print axioms Postcard.resync
#print axioms Postcard.resync_from
#print axioms Postcard.overflow_reported_from
#print axioms Postcard.overflow_reported
#print axioms Postcard.drain_terminates
#print axioms Postcard.run_terminates
#print axioms Postcard.drain_diverges_zero
