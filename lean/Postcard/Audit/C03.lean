import Postcard.Props.C03
import Postcard.Props.C01EnumAt
-- property theorems of C03: every one must depend only on propext / Classical.choice / Quot.sound
#print axioms Postcard.dec_ok_iff
#print axioms Postcard.decTuple_ok_iff
#print axioms Postcard.decN_ok_iff
#print axioms Postcard.decKV_ok_iff
#print axioms Postcard.decVariant_ok_iff
#print axioms Postcard.dec_sound
#print axioms Postcard.dec_complete
#print axioms Postcard.permitted_hasTy
#print axioms Postcard.dec_hasTy
#print axioms Postcard.permitted_enc
#print axioms Postcard.dec_enc
#print axioms Postcard.rest_irrelevant
#print axioms Postcard.permitted_prefix_free
#print axioms Postcard.strict_prefix_unexpected_end
#print axioms Postcard.dec_error_kinds
#print axioms Postcard.dec_bool_badBool_iff
#print axioms Postcard.dec_option_badOption
#print axioms Postcard.dec_option_badOption_iff
#print axioms Postcard.dec_str_badUtf8_iff
#print axioms Postcard.dec_char_badChar_iff
#print axioms Postcard.decVarint_badVarint_iff
#print axioms Postcard.dec_uN_badVarint_iff
#print axioms Postcard.dec_iN_badVarint_iff
#print axioms Postcard.dec_uN_unexpectedEnd_iff
#print axioms Postcard.decVarint_ok_iff
#print axioms Postcard.decEnumAt_ok_iff
#print axioms Postcard.decEnumAt_total
