import Postcard.Props.C02
import Postcard.Props.C05Collect
-- property theorems of C02: every one must depend only on propext / Classical.choice / Quot.sound
#print axioms Postcard.enc_eq_spec
#print axioms Postcard.encList_eq_spec_tys
#print axioms Postcard.encList_eq_spec_all
#print axioms Postcard.encList_eq_spec_kv
#print axioms Postcard.entry_points_eq_spec
#print axioms Postcard.enc_name_irrelevant
#print axioms Postcard.enc_fields
#print axioms Postcard.seq_unknown_len
#print axioms Postcard.seq_known_len
#print axioms Postcard.emit_seq_header
#print axioms Postcard.collect_str_eq
#print axioms Postcard.collect_unknown_refused
#print axioms Postcard.collect_exact
#print axioms Postcard.encVarint_eq_spec
#print axioms Postcard.varint_minimal
#print axioms Postcard.permitted_canonical
#print axioms Postcard.zigzag_eq_spec
#print axioms Postcard.leBytes_eq_spec
#print axioms Postcard.collect_alloc
#print axioms Postcard.collect_pieces_irrelevant
