import Postcard.Props.C19
-- property theorems of C19: every one must depend only on propext / Classical.choice / Quot.sound
#print axioms Postcard.fmt_total
#print axioms Postcard.discover_total
#print axioms Postcard.discoverSet_total
#print axioms Postcard.discover_eq_subterms
#print axioms Postcard.hasPanicLeaf_iff
#print axioms Postcard.discover_panics_iff
#print axioms Postcard.discover_unrepaired_cases
#print axioms Postcard.discover_exact
#print axioms Postcard.discoverSet_exact
#print axioms Postcard.discover_self
#print axioms Postcard.render_mentions
#print axioms Postcard.render_mentions_struct_name
#print axioms Postcard.render_mentions_struct_fields
#print axioms Postcard.render_mentions_enum_name
#print axioms Postcard.render_mentions_enum_variants
#print axioms Postcard.render_mentions_enum_variant_fields
#print axioms Postcard.render_nested_name
#print axioms Postcard.render_tuple
