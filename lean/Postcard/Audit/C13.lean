import Postcard.Props.C13
-- property theorems of C13: every one must depend only on propext / Classical.choice / Quot.sound
#print axioms Postcard.fixint_le
#print axioms Postcard.fixint_be
#print axioms Postcard.fixint_length
#print axioms Postcard.fixint_length_table
#print axioms Postcard.fixint_le_unsigned
#print axioms Postcard.fixint_hasTy
#print axioms Postcard.fixint_roundtrip_le
#print axioms Postcard.fixint_roundtrip_be
#print axioms Postcard.fixint_never_varint_unsigned
#print axioms Postcard.fixint_never_varint_signed
#print axioms Postcard.fixint_never_varint
#print axioms Postcard.fixint_be_never_varint_unsigned
