import Postcard.Props.C06
import Postcard.Props.EndToEnd
-- property theorems of C06: every one must depend only on propext / Classical.choice / Quot.sound
#print axioms Postcard.enc_u8_no_overflow
#print axioms Postcard.cobs_flavor_eq_spec_lawful
#print axioms Postcard.cobs_flavor_eq_spec
#print axioms Postcard.cobs_flavor_eq_spec_bytes
#print axioms Postcard.cobs_flavor_eq_spec_hvec
#print axioms Postcard.cobs_flavor_eq_spec_slice
#print axioms Postcard.cobs_serializeWith
#print axioms Postcard.cobs_flavor_no_panic
#print axioms Postcard.frame_no_interior_zero
#print axioms Postcard.frame_one_zero
#print axioms Postcard.frame_length
#print axioms Postcard.frame_length_with_sentinel
#print axioms Postcard.decode_encode
#print axioms Postcard.decode_encode_no_sentinel
#print axioms Postcard.take_frames
#print axioms Postcard.take_frames_iter
#print axioms Postcard.to_slice_cobs_then_from_bytes_cobs
#print axioms Postcard.to_hvec_cobs_then_from_bytes_cobs
