import Postcard.Props.C12
import Postcard.Props.C12Exact
-- property theorems of C12: every one must depend only on propext / Classical.choice / Quot.sound
#print axioms Postcard.varint_len_le_size
#print axioms Postcard.varint_len_eq_size
#print axioms Postcard.varint_len_le_discriminant
#print axioms Postcard.max_size_sound
#print axioms Postcard.max_size_sound_fields
#print axioms Postcard.max_size_tight_witness
#print axioms Postcard.max_size_tight
#print axioms Postcard.max_size_is_max
#print axioms Postcard.denum128_not_tight
#print axioms Postcard.inhabits_hasTy
#print axioms Postcard.max_size_roundtrip
#print axioms Postcard.fixint_within_max_size
#print axioms Postcard.inhabits_iff_hasTy
#print axioms Postcard.enc_le_encMax
#print axioms Postcard.encMax_attained
#print axioms Postcard.encMax_le_maxSize
#print axioms Postcard.encMax_eq_maxSize_of_tight
#print axioms Postcard.bound_iff_encMax_le
#print axioms Postcard.bound_of_encMax_le
#print axioms Postcard.encMax_not_attained_option_empty_payload
#print axioms Postcard.listed_tight
#print axioms Postcard.c12_decided_by_encMax
#print axioms Postcard.listed_populated
#print axioms Postcard.c12_listed_iff
