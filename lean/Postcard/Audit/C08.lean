import Postcard.Props.C08
import Postcard.Props.EndToEnd
-- property theorems of C08: every one must depend only on propext / Classical.choice / Quot.sound
#print axioms Postcard.feed_conserves
#print axioms Postcard.feed_conserves_rem
#print axioms Postcard.acc_delivers_from
#print axioms Postcard.acc_delivers
#print axioms Postcard.acc_delivers_chunking_irrelevant
#print axioms Postcard.acc_delivers_values
