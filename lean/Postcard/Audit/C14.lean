import Postcard.Props.C14
-- property theorems of C14: every one must depend only on propext / Classical.choice / Quot.sound
#print axioms Postcard.schema_conforms
#print axioms Postcard.schema_conforms_list
#print axioms Postcard.schema_conforms_of_namesOk
#print axioms Postcard.schema_conforms_unrepaired_partial
#print axioms Postcard.schema_reader
#print axioms Postcard.schema_reader_bytes
#print axioms Postcard.callTree_wfVal
#print axioms Postcard.schema_describes_serialize
#print axioms Postcard.conforms_schema_iff
#print axioms Postcard.conforms_schema_erase
#print axioms Postcard.ctSchema_conforms
#print axioms Postcard.raw_ident_not_conforms
#print axioms Postcard.raw_variant_not_conforms
#print axioms Postcard.raw_field_never_conforms
