import Postcard.Props.C07
-- property theorems of C07: every one must depend only on propext / Classical.choice / Quot.sound
#print axioms Postcard.decodeRaw_cases
#print axioms Postcard.cobs_de_total
#print axioms Postcard.malformed_iff
#print axioms Postcard.cobs_de_eq_spec
#print axioms Postcard.remainder_after_sentinel
#print axioms Postcard.remainder_cases
#print axioms Postcard.writes_confined
