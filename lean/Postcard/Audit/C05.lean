import Postcard.Props.C05
-- property theorems of C05: every one must depend only on propext / Classical.choice / Quot.sound
#print axioms Postcard.slice_feed_fits
#print axioms Postcard.slice_feed_overflow
#print axioms Postcard.slice_feed_overflow_prefix
#print axioms Postcard.slice_step_in_bounds
#print axioms Postcard.to_slice_threshold
#print axioms Postcard.prefix_and_tail
#print axioms Postcard.to_slice_mem_length
#print axioms Postcard.to_hvec_threshold
#print axioms Postcard.to_hvec_within_capacity
#print axioms Postcard.size_exact
#print axioms Postcard.alloc_never_fails
#print axioms Postcard.to_slice_ok_iff_size
