import Postcard.Props.C05
import Postcard.Props.C05Framed
import Postcard.Props.C05Collect
import Postcard.Props.C05PostError
-- property theorems of C05: every one must depend only on propext / Classical.choice / Quot.sound
#print axioms Postcard.slice_feed_fits
#print axioms Postcard.slice_feed_overflow
#print axioms Postcard.slice_feed_overflow_prefix
#print axioms Postcard.slice_step_in_bounds
#print axioms Postcard.to_slice_threshold
#print axioms Postcard.prefix_and_tail
#print axioms Postcard.to_slice_mem_length
#print axioms Postcard.to_hvec_threshold
#print axioms Postcard.to_hvec_within_capacity
#print axioms Postcard.size_exact
#print axioms Postcard.alloc_never_fails
#print axioms Postcard.to_slice_ok_iff_size
#print axioms Postcard.Slice.runBytes_threshold
#print axioms Postcard.HVec.runBytes_threshold
#print axioms Postcard.to_slice_crc_threshold
#print axioms Postcard.to_slice_crc_buffer
#print axioms Postcard.to_hvec_crc_threshold
#print axioms Postcard.to_hvec_crc_within_capacity
#print axioms Postcard.to_slice_cobs_cases
#print axioms Postcard.to_slice_cobs_threshold
#print axioms Postcard.to_slice_cobs_in_bounds
#print axioms Postcard.to_hvec_cobs_cases
#print axioms Postcard.to_hvec_cobs_threshold
#print axioms Postcard.to_hvec_cobs_within_capacity
#print axioms Postcard.to_slice_cobs_size_bounds
#print axioms Postcard.framed_fixed_never_panic
#print axioms Postcard.collect_alloc
#print axioms Postcard.collect_slice_threshold
#print axioms Postcard.collect_slice_buffer
#print axioms Postcard.collect_hvec_threshold
#print axioms Postcard.collect_hvec_within_capacity
#print axioms Postcard.collect_never_ok_truncated
#print axioms Postcard.collect_pieces_irrelevant
#print axioms Postcard.slice_call_inv
#print axioms Postcard.slice_any_history
#print axioms Postcard.hvec_any_history
