import Postcard.Props.C18
import Postcard.Props.C18Alloc
-- property theorems of C18: every one must depend only on propext / Classical.choice / Quot.sound
#print axioms Postcard.dyn_total
#print axioms Postcard.dyn_ser_total
#print axioms Postcard.dyn_de_total
#print axioms Postcard.fromSliceDyn_total
#print axioms Postcard.toStdvecDyn_total
#print axioms Postcard.decOwnedBytes_total
#print axioms Postcard.dyn_reencode_partial
#print axioms Postcard.dyn_reencode_partial_rest
#print axioms Postcard.dyn_reencode_false
#print axioms Postcard.dyn_reencode_false_dup_fields
#print axioms Postcard.dyn_alloc_bound_partial_frag
#print axioms Postcard.dyn_de_consumes_frag
#print axioms Postcard.alloc_seq_unit
#print axioms Postcard.dyn_alloc_bound_false
#print axioms Postcard.witness_reencode_option_unit
#print axioms Postcard.witness_reencode_dup_fields
#print axioms Postcard.dyn_alloc_bound
#print axioms Postcard.dyn_alloc_bound_consumed
#print axioms Postcard.dyn_alloc_schema_kind
#print axioms Postcard.frag_sub
#print axioms Postcard.alloc_map_seq_unit
#print axioms Postcard.alloc_enum_seq_unit
#print axioms Postcard.DynA.decOwnedBytes_cost
