import Postcard.Props.C01
import Postcard.Props.C01EnumAt
import Postcard.Props.EndToEnd
-- property theorems of C01: every one must depend only on propext / Classical.choice / Quot.sound
#print axioms Postcard.roundtrip
#print axioms Postcard.roundtrip_tuple
#print axioms Postcard.roundtrip_all
#print axioms Postcard.roundtrip_kv
#print axioms Postcard.roundtrip_variant
#print axioms Postcard.decVariant_walk
#print axioms Postcard.emit_flatten
#print axioms Postcard.toAllocVec_eq
#print axioms Postcard.encode_entry_out
#print axioms Postcard.encode_entry_succeeds
#print axioms Postcard.roundtrip_all_pairs
#print axioms Postcard.decVarint_encVarint
#print axioms Postcard.unzigzag_zigzag
#print axioms Postcard.utf8Next_encode
#print axioms Postcard.ofLeBytes_leBytes
#print axioms Postcard.to_slice_then_from_bytes
#print axioms Postcard.decVariant_skip
#print axioms Postcard.roundtrip_enumAt
#print axioms Postcard.decEnumAt_eq_dec
#print axioms Postcard.decEnumAt_ok_iff
#print axioms Postcard.decEnumAt_total
