import Postcard.Props.C15
-- property theorems of C15: every one must depend only on propext / Classical.choice / Quot.sound
#print axioms Postcard.tables_equal
#print axioms Postcard.data_tables_equal
#print axioms Postcard.idxOwned_injective
#print axioms Postcard.idxBorrowed_injective
#print axioms Postcard.tables_inverse
#print axioms Postcard.conv_id
#print axioms Postcard.convData_id
#print axioms Postcard.punning_val
#print axioms Postcard.punning
#print axioms Postcard.punning_data
#print axioms Postcard.owned_roundtrip_closed
#print axioms Postcard.borrowed_owned_roundtrip_closed
#print axioms Postcard.serOwned_injective
