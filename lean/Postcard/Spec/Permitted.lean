import Postcard.Model.DataModel
import Postcard.Model.De
import Postcard.Lemmas.Varint
/-
  Postcard.Spec.Permitted — which byte strings the published wire format
  (/repo/spec/src/wire-format.md) PERMITS for a value of a given type.

  `Spec.encode` (Spec/Wire.lean) is the one canonical encoding; the document's
  section "Canonicalization" says the format does NOT enforce canonical form:
  a varint may carry excess continuation bytes as long as it stays within the
  "Maximum Encoded Length" of its type and its value fits the type.  That is
  `PermittedVarint bits n p` (Lemmas/Varint.lean).  Everything else in the
  format is rigid.  The relation below is written rule by rule from the
  document's list of the 29 data-model kinds, WITHOUT reference to the
  structure of the Rust decoder (no cursor, no fuel, no error kinds).

  Imports from the model: only the data model (`Ty`, `Val`), the leaf codecs
  the document names (`ofLeBytes` little-endian, `ofBits 8` two's complement,
  `unzigzag`, `utf8Encode`/`utf8Valid`/`isScalar`) and `PermittedVarint`.
-/
namespace Postcard

mutual
/-- `Permitted t v p`: the byte string `p` is a complete encoding of the value
`v` at type `t` that the wire format permits. -/
inductive Permitted : Ty → Val → List Byte → Prop
  /-- 1 - bool: `0x00` / `0x01` stored as a u8. -/
  | boolFalse : Permitted .bool (.bool false) [0]
  | boolTrue : Permitted .bool (.bool true) [1]
  /-- 7 - u8: one byte as-is. -/
  | u8 (b : Byte) : Permitted (.u .w8) (.u .w8 b.toNat) [b]
  /-- 8-11 - u16..u128: varint, possibly non-canonical, within the maximum
  encoded length and the value range of the type. -/
  | uN (w : IntW) (n : Nat) (p : List Byte) :
      w ≠ .w8 → PermittedVarint w.bits n p → Permitted (.u w) (.u w n) p
  /-- 2 - i8: one byte, two's complement. -/
  | i8 (b : Byte) : Permitted (.i .w8) (.i .w8 (ofBits 8 b.toNat)) [b]
  /-- 3-6 - i16..i128: zig-zag, then varint. -/
  | iN (w : IntW) (n : Nat) (p : List Byte) :
      w ≠ .w8 → PermittedVarint w.bits n p → Permitted (.i w) (.i w (unzigzag n)) p
  /-- 12 - f32: the bit pattern as a little-endian array of 4 bytes. -/
  | f32 (bs : List Byte) : bs.length = 4 → Permitted .f32 (.f32 (ofLeBytes bs)) bs
  /-- 13 - f64: little-endian array of 8 bytes. -/
  | f64 (bs : List Byte) : bs.length = 8 → Permitted .f64 (.f64 (ofLeBytes bs)) bs
  /-- 14 - char: the UTF-8 encoding of ONE scalar value, as a string. -/
  | char (c : Nat) (p : List Byte) :
      isScalar c = true → PermittedVarint 64 (utf8Encode c).length p →
      Permitted .char (.char c) (p ++ utf8Encode c)
  /-- 15 - string: varint(usize) byte count, then that many bytes of valid UTF-8. -/
  | str (s p : List Byte) :
      PermittedVarint 64 s.length p → utf8Valid s = true → Permitted .str (.str s) (p ++ s)
  /-- 16 - byte array: varint(usize) count, then the bytes. -/
  | bytes (s p : List Byte) :
      PermittedVarint 64 s.length p → Permitted .bytes (.bytes s) (p ++ s)
  /-- 17 - option: `0x00`, or `0x01` followed by the value. -/
  | none (t : Ty) : Permitted (.option t) .none [0]
  | some (t : Ty) (v : Val) (p : List Byte) :
      Permitted t v p → Permitted (.option t) (.some v) (1 :: p)
  /-- 18, 19 - unit, unit struct: no bytes. -/
  | unit : Permitted .unit .unit []
  | unitStruct : Permitted .unitStruct .unitStruct []
  /-- 21 - newtype struct: the contained value. -/
  | newtypeStruct (t : Ty) (v : Val) (p : List Byte) :
      Permitted t v p → Permitted (.newtypeStruct t) (.newtypeStruct v) p
  /-- 23 - seq: varint(usize) element count, then the elements. -/
  | seq (t : Ty) (vs : List Val) (p q : List Byte) :
      PermittedVarint 64 vs.length p → PermittedAll t vs q →
      Permitted (.seq t) (.seq vs) (p ++ q)
  /-- 24, 25, 28 - tuple, tuple struct, struct: the fields in order, nothing else. -/
  | tuple (ts : List Ty) (vs : List Val) (p : List Byte) :
      PermittedTuple ts vs p → Permitted (.tuple ts) (.tuple vs) p
  | tupleStruct (ts : List Ty) (vs : List Val) (p : List Byte) :
      PermittedTuple ts vs p → Permitted (.tupleStruct ts) (.tupleStruct vs) p
  | struct (ts : List Ty) (vs : List Val) (p : List Byte) :
      PermittedTuple ts vs p → Permitted (.struct ts) (.struct vs) p
  /-- 27 - map: varint(usize) pair count, then the pairs (key, value) in order.
  The value stores the pairs flat: `k₀ v₀ k₁ v₁ …`. -/
  | map (k v : Ty) (kvs : List Val) (p q : List Byte) :
      PermittedVarint 64 (kvs.length / 2) p → PermittedKV k v kvs q →
      Permitted (.map k v) (.map kvs) (p ++ q)
  /-- 20, 22, 26, 29 - enum variants: varint(u32) discriminant selecting the
  variant by index, then the variant's content. -/
  | enum (vts : List Ty) (idx : Nat) (vt : Ty) (v : Val) (p q : List Byte) :
      PermittedVarint 32 idx p → vts[idx]? = .some vt → PermittedVariant vt idx v q →
      Permitted (.enum vts) v (p ++ q)
/-- content of variant number `idx` whose descriptor is `vt`. -/
inductive PermittedVariant : Ty → Nat → Val → List Byte → Prop
  /-- 20 - unit variant: nothing after the discriminant. -/
  | unit (idx : Nat) : PermittedVariant .unit idx (.unitVariant idx) []
  /-- 22 - newtype variant: the contained value. -/
  | newtype (t : Ty) (idx : Nat) (v : Val) (p : List Byte) :
      Permitted t v p → PermittedVariant (.newtypeStruct t) idx (.newtypeVariant idx v) p
  /-- 26 - tuple variant: the fields in order. -/
  | tuple (ts : List Ty) (idx : Nat) (vs : List Val) (p : List Byte) :
      PermittedTuple ts vs p → PermittedVariant (.tuple ts) idx (.tupleVariant idx vs) p
  /-- 29 - struct variant: the fields in order. -/
  | struct (ts : List Ty) (idx : Nat) (vs : List Val) (p : List Byte) :
      PermittedTuple ts vs p → PermittedVariant (.struct ts) idx (.structVariant idx vs) p
/-- fields of the given types, concatenated in order. -/
inductive PermittedTuple : List Ty → List Val → List Byte → Prop
  | nil : PermittedTuple [] [] []
  | cons (t : Ty) (ts : List Ty) (v : Val) (vs : List Val) (p q : List Byte) :
      Permitted t v p → PermittedTuple ts vs q → PermittedTuple (t :: ts) (v :: vs) (p ++ q)
/-- elements all of one type, concatenated. -/
inductive PermittedAll : Ty → List Val → List Byte → Prop
  | nil (t : Ty) : PermittedAll t [] []
  | cons (t : Ty) (v : Val) (vs : List Val) (p q : List Byte) :
      Permitted t v p → PermittedAll t vs q → PermittedAll t (v :: vs) (p ++ q)
/-- flat key/value list `k₀ v₀ k₁ v₁ …`, concatenated. -/
inductive PermittedKV : Ty → Ty → List Val → List Byte → Prop
  | nil (k v : Ty) : PermittedKV k v [] []
  | cons (k v : Ty) (x y : Val) (kvs : List Val) (p q s : List Byte) :
      Permitted k x p → Permitted v y q → PermittedKV k v kvs s →
      PermittedKV k v (x :: y :: kvs) (p ++ q ++ s)
end

-- `any` / `identifier` / `ignoredAny` have no rule: postcard is not
-- self-describing, nothing is permitted at those "types".

-- rows of the document's Canonicalization table (tests of the transcription)
example : Permitted (.u .w16) (.u .w16 0) [0x00] :=
  .uN _ _ _ (by decide) ⟨by decide, by decide, by decide, by decide, by decide, by decide⟩
example : Permitted (.u .w16) (.u .w16 0) [0x80, 0x00] :=
  .uN _ _ _ (by decide) ⟨by decide, by decide, by decide, by decide, by decide, by decide⟩
example : Permitted (.u .w16) (.u .w16 0) [0x80, 0x80, 0x00] :=
  .uN _ _ _ (by decide) ⟨by decide, by decide, by decide, by decide, by decide, by decide⟩
example : Permitted (.u .w16) (.u .w16 65535) [0xFF, 0xFF, 0x03] :=
  .uN _ _ _ (by decide) ⟨by decide, by decide, by decide, by decide, by decide, by decide⟩
example : ¬ ∃ n, PermittedVarint 16 n [0x80, 0x80, 0x80, 0x00] := by
  rintro ⟨n, _, h, _⟩; exact absurd h (by decide)
example : ¬ ∃ n, PermittedVarint 16 n [0xFF, 0xFF, 0x07] := by
  rintro ⟨n, _, _, _, _, h, h'⟩; subst h; exact absurd h' (by decide)

end Postcard
