import Postcard.Model.CallTree
import Postcard.Model.De
/-
  Postcard.Spec.Conforms — SPECIFICATION for property C14
  ("a type's Schema describes exactly what its Serialize writes").

  * `conforms c s` — the serde call tree `c` (kinds, field names and order,
    variant names and indices, arity, element types) is one that the schema
    `s` describes.  Decidable, structural.  Struct and enum TYPE names are
    not compared (the property does not list them; e.g. the schema of
    `Range<T>` is named "Range<T>", serde calls it "Range").
  * `schemaParse fuel s bs` — a reader that knows nothing but the schema `s`.
    Its result is a name-free skeleton (`Val`) and the unread remainder.

  The kind `.schema` ("the value is itself a schema") has no structure inside
  the `Schema` tree; what it stands for is fixed by the declarations of
  `DataModelType`/`OwnedDataModelType`: `conforms c .schema` holds iff `c` is —
  up to struct/enum type names — the call tree `ctSchema true s'` of some
  schema value `s'` (`isSchemaTree`, with `toSchema` computing the witness).
-/
namespace Postcard

/-! ## Equality of call trees up to struct/enum type names -/

mutual
/-- same kinds, same payloads, same FIELD names, same VARIANT names and indices;
the names of the struct / enum types themselves are not compared. -/
def CT.eqModTy : CT → CT → Bool
  | .bool a, .bool b => decide (a = b)
  | .u w n, .u w' n' => decide (w = w') && decide (n = n')
  | .i w x, .i w' x' => decide (w = w') && decide (x = x')
  | .f32 a, .f32 b => decide (a = b)
  | .f64 a, .f64 b => decide (a = b)
  | .char a, .char b => decide (a = b)
  | .str a, .str b => decide (a = b)
  | .bytes a, .bytes b => decide (a = b)
  | .none, .none => true
  | .some a, .some b => CT.eqModTy a b
  | .unit, .unit => true
  | .unitStruct _, .unitStruct _ => true
  | .unitVariant _ p vn, .unitVariant _ q vm => decide (p = q) && decide (vn = vm)
  | .newtypeStruct _ a, .newtypeStruct _ b => CT.eqModTy a b
  | .newtypeVariant _ p vn a, .newtypeVariant _ q vm b =>
    decide (p = q) && decide (vn = vm) && CT.eqModTy a b
  | .seq as, .seq bs => CT.eqModTyList as bs
  | .tuple as, .tuple bs => CT.eqModTyList as bs
  | .tupleStruct _ as, .tupleStruct _ bs => CT.eqModTyList as bs
  | .tupleVariant _ p vn as, .tupleVariant _ q vm bs =>
    decide (p = q) && decide (vn = vm) && CT.eqModTyList as bs
  | .map as, .map bs => CT.eqModTyList as bs
  | .struct _ ns as, .struct _ ms bs => decide (ns = ms) && CT.eqModTyList as bs
  | .structVariant _ p vn ns as, .structVariant _ q vm ms bs =>
    decide (p = q) && decide (vn = vm) && decide (ns = ms) && CT.eqModTyList as bs
  | _, _ => false
def CT.eqModTyList : List CT → List CT → Bool
  | [], [] => true
  | a :: as, b :: bs => CT.eqModTy a b && CT.eqModTyList as bs
  | _, _ => false
end

/-! ## Which call trees serialise a schema value -/

/-- the leaf (payload-free) schema of a kind. -/
def leafOfKind : SchemaKind → Option Schema
  | .bool => some .bool | .i8 => some .i8 | .u8 => some .u8 | .i16 => some .i16
  | .i32 => some .i32 | .i64 => some .i64 | .i128 => some .i128 | .u16 => some .u16
  | .u32 => some .u32 | .u64 => some .u64 | .u128 => some .u128 | .usize => some .usize
  | .isize => some .isize | .f32 => some .f32 | .f64 => some .f64 | .char => some .char
  | .string => some .string | .byteArray => some .byteArray | .unit => some .unit
  | .schema => some .schema
  | .option | .seq | .tuple | .map | .struct | .enum => none

mutual
/-- candidate `s'` with `c = ctSchema _ s'` (a witness FINDER: it looks at the
variant indices only; `isSchemaTree` then checks the candidate completely). -/
def toSchema : CT → Option Schema
  | .unitVariant _ idx _ =>
    match kindOfIdxOwned idx with
    | some k => leafOfKind k
    | none => none
  | .newtypeVariant _ idx _ c =>
    match kindOfIdxOwned idx with
    | some .option => (toSchema c).map .option
    | some .seq => (toSchema c).map .seq
    | some .tuple => (toSchemaSeq c).map .tuple
    | _ => none
  | .structVariant _ idx _ _ cs =>
    match kindOfIdxOwned idx with
    | some .map =>
      match toSchemaList cs with
      | some [k, v] => some (.map k v)
      | _ => none
    | some .struct => toNameData cs
    | some .enum => toNameVariants cs
    | _ => none
  | _ => none
def toSchemaSeq : CT → Option (List Schema)
  | .seq cs => toSchemaList cs
  | _ => none
def toSchemaList : List CT → Option (List Schema)
  | [] => some []
  | c :: cs =>
    match toSchema c, toSchemaList cs with
    | some t, some ts => some (t :: ts)
    | _, _ => none
/-- `[name, data]` of `Struct { name, data }` -/
def toNameData : List CT → Option Schema
  | [.str n, d] => (toData d).map (.struct n)
  | _ => none
/-- `[name, variants]` of `Enum { name, variants }` -/
def toNameVariants : List CT → Option Schema
  | [.str n, .seq vcs] => (toVariants vcs).map (.enum n)
  | _ => none
def toData : CT → Option SData
  | .unitVariant _ idx _ =>
    match dataKindOfIdxOwned idx with
    | some .unit => some .unit
    | _ => none
  | .newtypeVariant _ idx _ c =>
    match dataKindOfIdxOwned idx with
    | some .newtype => (toSchema c).map .newtype
    | some .tuple => (toSchemaSeq c).map .tuple
    | some .struct => (toFieldsSeq c).map .struct
    | _ => none
  | _ => none
def toFieldsSeq : CT → Option (List SField)
  | .seq cs => toFields cs
  | _ => none
def toFields : List CT → Option (List SField)
  | [] => some []
  | c :: cs =>
    match toField c, toFields cs with
    | some f, some fs => some (f :: fs)
    | _, _ => none
def toField : CT → Option SField
  | .struct _ _ cs => toNameTy cs
  | _ => none
def toNameTy : List CT → Option SField
  | [.str n, t] => (toSchema t).map (.mk n)
  | _ => none
def toVariants : List CT → Option (List SVariant)
  | [] => some []
  | c :: cs =>
    match toVariant c, toVariants cs with
    | some v, some vs => some (v :: vs)
    | _, _ => none
def toVariant : CT → Option SVariant
  | .struct _ _ cs => toNameDataV cs
  | _ => none
def toNameDataV : List CT → Option SVariant
  | [.str n, d] => (toData d).map (.mk n)
  | _ => none
end

/-- `c` is, up to struct/enum type names, the call tree of a schema value:
`∃ s', c ≈ ctSchema true s'`  (hence `c.erase = serOwned s'`,
lemma `isSchemaTree_erase`). -/
def isSchemaTree (c : CT) : Bool :=
  match toSchema c with
  | some s' => CT.eqModTy c (ctSchema true s')
  | none => false

/-! ## `conforms` -/

/-- the unsigned-integer kinds: `u64` is what both `U64` and `Usize` describe
(postcard writes `usize` as a `u64` varint). -/
def uKindOf : Schema → Option IntW
  | .u8 => some .w8 | .u16 => some .w16 | .u32 => some .w32 | .u64 => some .w64
  | .u128 => some .w128 | .usize => some .w64
  | _ => none

def iKindOf : Schema → Option IntW
  | .i8 => some .w8 | .i16 => some .w16 | .i32 => some .w32 | .i64 => some .w64
  | .i128 => some .w128 | .isize => some .w64
  | _ => none

mutual
/-- `conforms c s`: the call tree `c` is described by the schema `s`. -/
def conforms : CT → Schema → Bool
  | .bool _, .bool => true
  | .u w _, s => decide (uKindOf s = some w)
  | .i w _, s => decide (iKindOf s = some w)
  | .f32 _, .f32 => true
  | .f64 _, .f64 => true
  | .char _, .char => true
  | .str _, .string => true
  | .bytes _, .byteArray => true
  | .none, .option _ => true
  | .some c, .option t => conforms c t
  | .unit, .unit => true
  | .seq cs, .seq t => conformsAll cs t
  | .tuple cs, .tuple ts => conformsList cs ts
  | .map kvs, .map k v => conformsKV true kvs k v
  -- structs: the data kind must match; fields by name and order
  | .unitStruct _, .struct _ .unit => true
  | .newtypeStruct _ c, .struct _ (.newtype t) => conforms c t
  | .tupleStruct _ cs, .struct _ (.tuple ts) => conformsList cs ts
  | .struct _ ns cs, .struct _ (.struct fs) => conformsFields ns cs fs
  -- enum variants: `vs[idx]` exists, has the same name and the same data kind
  | .unitVariant _ idx vn, .enum _ vs =>
    match vs[idx]? with
    | some (.mk vn' .unit) => decide (vn = vn')
    | _ => false
  | .newtypeVariant _ idx vn c, .enum _ vs =>
    match vs[idx]? with
    | some (.mk vn' (.newtype t)) => decide (vn = vn') && conforms c t
    | _ => false
  | .tupleVariant _ idx vn cs, .enum _ vs =>
    match vs[idx]? with
    | some (.mk vn' (.tuple ts)) => decide (vn = vn') && conformsList cs ts
    | _ => false
  | .structVariant _ idx vn ns cs, .enum _ vs =>
    match vs[idx]? with
    | some (.mk vn' (.struct fs)) => decide (vn = vn') && conformsFields ns cs fs
    | _ => false
  -- a schema value (only these three calls can start one)
  | .unitVariant en idx vn, .schema => isSchemaTree (.unitVariant en idx vn)
  | .newtypeVariant en idx vn c, .schema => isSchemaTree (.newtypeVariant en idx vn c)
  | .structVariant en idx vn ns cs, .schema => isSchemaTree (.structVariant en idx vn ns cs)
  | _, _ => false
/-- same arity, pointwise -/
def conformsList : List CT → List Schema → Bool
  | [], [] => true
  | c :: cs, t :: ts => conforms c t && conformsList cs ts
  | _, _ => false
/-- every element conforms to the one element schema -/
def conformsAll : List CT → Schema → Bool
  | [], _ => true
  | c :: cs, t => conforms c t && conformsAll cs t
/-- flat `k₀ v₀ k₁ v₁ …`; `isKey` says whether the next element is a key -/
def conformsKV : Bool → List CT → Schema → Schema → Bool
  | isKey, [], _, _ => isKey
  | isKey, x :: xs, k, v => conforms x (if isKey then k else v) && conformsKV (!isKey) xs k v
/-- the SAME field names in the SAME order, each value conforming to its field type -/
def conformsFields : List Name → List CT → List SField → Bool
  | [], [], [] => true
  | n :: ns, c :: cs, .mk n' t :: fs =>
    decide (n = n') && conforms c t && conformsFields ns cs fs
  | _, _, _ => false
end

/-! ## The schema-driven reader -/

/-- skeleton constructors: `tag = none` for a struct, `some idx` for the variant `idx` -/
def mkUnit : Option Nat → Val
  | none => .unitStruct
  | some i => .unitVariant i
def mkNewtype : Option Nat → Val → Val
  | none, v => .newtypeStruct v
  | some i, v => .newtypeVariant i v
def mkTuple : Option Nat → List Val → Val
  | none, vs => .tupleStruct vs
  | some i, vs => .tupleVariant i vs
def mkStruct : Option Nat → List Val → Val
  | none, vs => .struct vs
  | some i, vs => .structVariant i vs

mutual
/-- Read one value described by `s` from the front of `bs`: returns its
name-free skeleton and the unread remainder.  Uses nothing but `s`:
leaf kinds are the primitive readers of the wire format (`dec` at a leaf
type: one byte for bool/u8/i8, a varint of the width, 4/8 float bytes,
length-prefixed UTF-8 / bytes), `Usize`/`Isize` are 64-bit varints;
`Option` reads the tag byte, `Seq`/`Map` a count and then that many
elements/pairs, `Tuple`/struct data the elements in order, `Enum` a `u32`
varint index selecting the variant data, `Schema` a nested owned schema
(`decOwned`, `fuel` = its nesting bound) whose skeleton is `serOwned`. -/
def schemaParse (fuel : Nat) : Schema → List Byte → R (Val × List Byte)
  | .bool, bs => dec .bool bs
  | .i8, bs => dec (.i .w8) bs
  | .u8, bs => dec (.u .w8) bs
  | .i16, bs => dec (.i .w16) bs
  | .i32, bs => dec (.i .w32) bs
  | .i64, bs => dec (.i .w64) bs
  | .i128, bs => dec (.i .w128) bs
  | .u16, bs => dec (.u .w16) bs
  | .u32, bs => dec (.u .w32) bs
  | .u64, bs => dec (.u .w64) bs
  | .u128, bs => dec (.u .w128) bs
  | .usize, bs => dec (.u .w64) bs
  | .isize, bs => dec (.i .w64) bs
  | .f32, bs => dec .f32 bs
  | .f64, bs => dec .f64 bs
  | .char, bs => dec .char bs
  | .string, bs => dec .str bs
  | .byteArray, bs => dec .bytes bs
  | .option t, bs =>
    match bs with
    | [] => .error .unexpectedEnd
    | b :: r =>
      if b = 0 then .ok (.none, r)
      else if b = 1 then
        match schemaParse fuel t r with
        | .error e => .error e
        | .ok (v, r') => .ok (.some v, r')
      else .error .badOption
  | .unit, bs => .ok (.unit, bs)
  | .seq t, bs =>
    match decVarint 64 bs with
    | .error e => .error e
    | .ok (n, r) =>
      match decN (schemaParse fuel t) n r with
      | .error e => .error e
      | .ok (vs, r') => .ok (.seq vs, r')
  | .tuple ts, bs =>
    match schemaParseList fuel ts bs with
    | .error e => .error e
    | .ok (vs, r) => .ok (.tuple vs, r)
  | .map k v, bs =>
    match decVarint 64 bs with
    | .error e => .error e
    | .ok (n, r) =>
      match decKV (schemaParse fuel k) (schemaParse fuel v) n r with
      | .error e => .error e
      | .ok (kvs, r') => .ok (.map kvs, r')
  | .struct _ d, bs => schemaParseData fuel none d bs
  | .enum _ vs, bs =>
    match decVarint 32 bs with
    | .error e => .error e
    | .ok (idx, r) => schemaParseVariant fuel vs idx idx r
  | .schema, bs =>
    match decOwned fuel bs with
    | .error e => .error e
    | .ok (s', r) => .ok (serOwned s', r)
termination_by structural s => s
/-- the elements in order -/
def schemaParseList (fuel : Nat) : List Schema → List Byte → R (List Val × List Byte)
  | [], bs => .ok ([], bs)
  | t :: ts, bs =>
    match schemaParse fuel t bs with
    | .error e => .error e
    | .ok (v, r) =>
      match schemaParseList fuel ts r with
      | .error e => .error e
      | .ok (vs, r') => .ok (v :: vs, r')
termination_by structural ts => ts
/-- struct / variant data -/
def schemaParseData (fuel : Nat) (tag : Option Nat) : SData → List Byte → R (Val × List Byte)
  | .unit, bs => .ok (mkUnit tag, bs)
  | .newtype t, bs =>
    match schemaParse fuel t bs with
    | .error e => .error e
    | .ok (v, r) => .ok (mkNewtype tag v, r)
  | .tuple ts, bs =>
    match schemaParseList fuel ts bs with
    | .error e => .error e
    | .ok (vs, r) => .ok (mkTuple tag vs, r)
  | .struct fs, bs =>
    match schemaParseFields fuel fs bs with
    | .error e => .error e
    | .ok (vs, r) => .ok (mkStruct tag vs, r)
termination_by structural d => d
/-- the fields in order (the names are not on the wire) -/
def schemaParseFields (fuel : Nat) : List SField → List Byte → R (List Val × List Byte)
  | [], bs => .ok ([], bs)
  | .mk _ t :: fs, bs =>
    match schemaParse fuel t bs with
    | .error e => .error e
    | .ok (v, r) =>
      match schemaParseFields fuel fs r with
      | .error e => .error e
      | .ok (vs, r') => .ok (v :: vs, r')
termination_by structural fs => fs
/-- walk to variant `k`; `idx` is the index read from the wire.  An index
beyond the variant list is an error (`custom`, as serde's `invalid_value`). -/
def schemaParseVariant (fuel : Nat) : List SVariant → Nat → Nat → List Byte → R (Val × List Byte)
  | [], _, _, _ => .error .custom
  | .mk _ d :: _, 0, idx, bs => schemaParseData fuel (some idx) d bs
  | _ :: rest, k+1, idx, bs => schemaParseVariant fuel rest k idx bs
termination_by structural vs => vs
end

/-- fuel-free entry point: every schema node occupies at least one byte, so
`bs.length + 1` always covers the nesting of an embedded schema value. -/
def schemaRead (s : Schema) (bs : List Byte) : R (Val × List Byte) :=
  schemaParse (bs.length + 1) s bs

end Postcard
