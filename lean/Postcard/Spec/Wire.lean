import Postcard.Model.DataModel
/-
  Postcard.Spec.Wire — the published wire format, transcribed from
  /repo/spec/src/wire-format.md section by section, WITHOUT reference to the
  structure of the Rust code: no fuel, no widths in the varint writer, no
  flavours.  This is the "independent encoder written from the specification"
  that property C02 compares against.  The `example`s at the bottom are the
  rows of the document's tables (tests, labelled as tests, that pin the
  transcription).
-/
namespace Postcard.Spec
open Postcard

/-- "`varint` encoded integers": little-endian groups of seven data bits, the
most significant bit of each byte is the continuation flag (1 = not last).
Canonical form: no excess bytes. -/
def varint (n : Nat) : List Byte :=
  if n < 128 then [UInt8.ofNat n]
  else UInt8.ofNat (128 + n % 128) :: varint (n / 128)
termination_by n
decreasing_by omega

/-- "Signed Integer Encoding": zig-zag stores the sign in the least significant
bit: 0 → 0, −1 → 1, 1 → 2, −2 → 3, … -/
def zigzag (x : Int) : Nat :=
  if 0 ≤ x then (2 * x).toNat else (-2 * x - 1).toNat

/-- little-endian array of `k` bytes -/
def le : Nat → Nat → List Byte
  | 0, _ => []
  | k+1, n => UInt8.ofNat (n % 256) :: le k (n / 256)

/-- two's complement form of an `i8` -/
def twos8 (x : Int) : Nat := if 0 ≤ x then x.toNat else (256 + x).toNat

mutual
/-- "Serde Data Model Types", items 1–29. -/
def encode : Val → List Byte
  | .bool b => [if b then 0x01 else 0x00]                        -- 1
  | .i .w8 x => [UInt8.ofNat (twos8 x)]                          -- 2
  | .i _ x => varint (zigzag x)                                  -- 3–6
  | .u .w8 n => [UInt8.ofNat n]                                  -- 7
  | .u _ n => varint n                                           -- 8–11
  | .f32 b => le 4 b                                             -- 12
  | .f64 b => le 8 b                                             -- 13
  | .char c => let s := utf8Encode c; varint s.length ++ s       -- 14 (as a string)
  | .str s => varint s.length ++ s                               -- 15
  | .bytes b => varint b.length ++ b                             -- 16
  | .none => [0x00]                                              -- 17
  | .some v => 0x01 :: encode v
  | .unit => []                                                  -- 18
  | .unitStruct => []                                            -- 19
  | .unitVariant idx => varint idx                               -- 20
  | .newtypeStruct v => encode v                                 -- 21
  | .newtypeVariant idx v => varint idx ++ encode v              -- 22
  | .seq vs => varint vs.length ++ encodeAll vs                  -- 23
  | .tuple vs => encodeAll vs                                    -- 24
  | .tupleStruct vs => encodeAll vs                              -- 25
  | .tupleVariant idx vs => varint idx ++ encodeAll vs           -- 26
  | .map kvs => varint (kvs.length / 2) ++ encodeAll kvs         -- 27 (pairs as tuples = concatenation)
  | .struct vs => encodeAll vs                                   -- 28
  | .structVariant idx vs => varint idx ++ encodeAll vs          -- 29
def encodeAll : List Val → List Byte
  | [] => []
  | v :: vs => encode v ++ encodeAll vs
end

/-- "Maximum Encoded Length": ceil(len_bytes * 8 / 7). -/
def encodedMax (lenBytes : Nat) : Nat := (lenBytes * 8 + 6) / 7

-- Table "Unsigned Integer Encoding" (tests of the transcription)
example : varint 0 = [0x00] := by simp [varint]
example : varint 127 = [0x7F] := by simp [varint]
example : varint 128 = [0x80, 0x01] := by simp [varint]
example : varint 16383 = [0xFF, 0x7F] := by simp [varint]
example : varint 16384 = [0x80, 0x80, 0x01] := by simp [varint]
example : varint 16385 = [0x81, 0x80, 0x01] := by simp [varint]
example : varint 65535 = [0xFF, 0xFF, 0x03] := by simp [varint]
-- Table "Signed Integer Encoding"
example : zigzag 0 = 0 ∧ zigzag (-1) = 1 ∧ zigzag 1 = 2 ∧ zigzag 63 = 0x7E ∧ zigzag (-64) = 0x7F
    ∧ zigzag 64 = 0x80 ∧ zigzag (-65) = 0x81 ∧ zigzag 32767 = 0xFFFE ∧ zigzag (-32768) = 0xFFFF := by
  decide
example : varint (zigzag (-65)) = [0x81, 0x01] := by simp [varint, zigzag]
example : varint (zigzag 32767) = [0xFE, 0xFF, 0x03] := by simp [varint, zigzag]
example : varint (zigzag (-32768)) = [0xFF, 0xFF, 0x03] := by simp [varint, zigzag]
-- Table "Maximum Encoded Length"
example : encodedMax 2 = 3 ∧ encodedMax 4 = 5 ∧ encodedMax 8 = 10 ∧ encodedMax 16 = 19 := by decide
-- f32 / f64 examples
example : le 4 0xc2000600 = [0x00, 0x06, 0x00, 0xc2] := by decide
example : le 8 0xc04000c000000000 = [0x00, 0x00, 0x00, 0x00, 0xc0, 0x00, 0x40, 0xc0] := by decide

end Postcard.Spec
