import Postcard.Model.Basic
import Postcard.Model.Schema
/-
  Postcard.Spec.Fnv — SPECIFICATION of the postcard-schema dispatch key
  (source/postcard-schema/src/key/hash.rs, key/mod.rs).

  The key of `(path, schema)` is the 64-bit FNV-1a hash, rendered as 8
  little-endian bytes, of the byte stream

        path bytes  ++  tag-and-name stream of the schema tree

  where the tag-and-name stream is a pre-order walk of the schema tree that
  emits, per node, ONE tag byte (table `Spec.tag` below, transcribed from the
  arms of `hash_sdm_type` / `hash_struct` / `hash_variant`), the raw UTF-8 bytes
  of every FIELD name and every VARIANT name (no length framing, no terminator),
  and NOTHING for struct / enum TYPE names (hash.rs: "We do *not* hash the name
  of the type in hashv2").  A `Struct` node has no tag of its own: the tag of
  its `Data` (struct-data table) stands for it.  A `Variant` emits its name and
  then the tag of its `Data` (variant-data table, different from the struct-data
  table).  Sequences of children (tuple elements, fields, variants) are emitted
  back to back without count or terminator.
-/
namespace Postcard
namespace Spec

/-! ## FNV-1a, 64 bit -/

/-- `Fnv1a64Hasher::BASIS` -/
def fnvBasis : UInt64 := 0xcbf29ce484222325
/-- `Fnv1a64Hasher::PRIME` -/
def fnvPrime : UInt64 := 0x100000001b3

/-- one FNV-1a round: xor the (zero-extended) byte in, multiply by the prime
(wrapping). -/
def fnvStep (h : UInt64) (b : Byte) : UInt64 := (h ^^^ b.toUInt64) * fnvPrime

/-- FNV-1a continued from state `h`. -/
def fnv1aFrom (h : UInt64) (bs : List Byte) : UInt64 := bs.foldl fnvStep h

/-- 64-bit FNV-1a of a byte string. -/
def fnv1a (bs : List Byte) : UInt64 := fnv1aFrom fnvBasis bs

/-! ## The one tag table -/

/-- Everything that owns a tag byte: 25 `DataModelType` kinds (all but
`Struct`, which is represented by the tag of its `Data`), the 4 `Data` kinds in
struct position and the 4 `Data` kinds in variant position. -/
inductive Kind
  | bool | i8 | u8 | i16 | i32 | i64 | i128 | u16 | u32 | u64 | u128
  | usize | isize | f32 | f64 | char | string | byteArray
  | option | unit | seq | tuple | map | enum | schema
  | structUnit | structNewtype | structTuple | structStruct
  | variantUnit | variantNewtype | variantTuple | variantStruct
  deriving DecidableEq, Repr

/-- The tag table (hash.rs, arms of `hash_sdm_type`, `hash_struct`,
`hash_variant`; these are the first 35 entries of the `shuffled_primes` comment
minus the two unused ones 0x95 (4th) and 0xB3 (34th)). -/
def tag : Kind → Byte
  | .bool => 0x11
  | .i8 => 0xC5
  | .u8 => 0x3D
  | .i16 => 0x1D
  | .i32 => 0x0D
  | .i64 => 0x0B
  | .i128 => 0x02
  | .u16 => 0x83
  | .u32 => 0xD3
  | .u64 => 0x13
  | .u128 => 0x8B
  | .usize => 0x6B
  | .isize => 0xAD
  | .f32 => 0xEF
  | .f64 => 0x71
  | .char => 0xC1
  | .string => 0x25
  | .byteArray => 0x65
  | .option => 0x6D
  | .unit => 0x47
  | .seq => 0x03
  | .tuple => 0xA7
  | .map => 0x4F
  | .enum => 0xE9
  | .schema => 0xE5
  | .structUnit => 0xBF
  | .structNewtype => 0x9D
  | .structTuple => 0x05
  | .structStruct => 0x7F
  | .variantUnit => 0xB5
  | .variantNewtype => 0xDF
  | .variantTuple => 0xC7
  | .variantStruct => 0x67

/-- all 33 tag owners, in table order -/
def Kind.all : List Kind :=
  [.bool, .i8, .u8, .i16, .i32, .i64, .i128, .u16, .u32, .u64, .u128,
   .usize, .isize, .f32, .f64, .char, .string, .byteArray,
   .option, .unit, .seq, .tuple, .map, .enum, .schema,
   .structUnit, .structNewtype, .structTuple, .structStruct,
   .variantUnit, .variantNewtype, .variantTuple, .variantStruct]

/-! ## The tag-and-name stream -/

mutual
/-- pre-order tag-and-name stream of a schema tree -/
def stream : Schema → List Byte
  | .bool => [tag .bool]
  | .i8 => [tag .i8]
  | .u8 => [tag .u8]
  | .i16 => [tag .i16]
  | .i32 => [tag .i32]
  | .i64 => [tag .i64]
  | .i128 => [tag .i128]
  | .u16 => [tag .u16]
  | .u32 => [tag .u32]
  | .u64 => [tag .u64]
  | .u128 => [tag .u128]
  | .usize => [tag .usize]
  | .isize => [tag .isize]
  | .f32 => [tag .f32]
  | .f64 => [tag .f64]
  | .char => [tag .char]
  | .string => [tag .string]
  | .byteArray => [tag .byteArray]
  | .option t => tag .option :: stream t
  | .unit => [tag .unit]
  | .seq t => tag .seq :: stream t
  | .tuple ts => tag .tuple :: streamList ts
  | .map k v => tag .map :: (stream k ++ stream v)
  | .struct _ d => streamStructData d          -- type name NOT emitted
  | .enum _ vs => tag .enum :: streamVariants vs  -- type name NOT emitted
  | .schema => [tag .schema]
/-- children back to back, no count, no terminator -/
def streamList : List Schema → List Byte
  | [] => []
  | t :: ts => stream t ++ streamList ts
/-- `Data` in struct position -/
def streamStructData : SData → List Byte
  | .unit => [tag .structUnit]
  | .newtype t => tag .structNewtype :: stream t
  | .tuple ts => tag .structTuple :: streamList ts
  | .struct fs => tag .structStruct :: streamFields fs
/-- `Data` in variant position -/
def streamVariantData : SData → List Byte
  | .unit => [tag .variantUnit]
  | .newtype t => tag .variantNewtype :: stream t
  | .tuple ts => tag .variantTuple :: streamList ts
  | .struct fs => tag .variantStruct :: streamFields fs
/-- a named field: raw name bytes, then the type -/
def streamField : SField → List Byte
  | .mk name ty => name ++ stream ty
def streamFields : List SField → List Byte
  | [] => []
  | f :: fs => streamField f ++ streamFields fs
/-- a variant: raw name bytes, then the variant-data -/
def streamVariant : SVariant → List Byte
  | .mk name d => name ++ streamVariantData d
def streamVariants : List SVariant → List Byte
  | [] => []
  | v :: vs => streamVariant v ++ streamVariants vs
end

/-! ## The key -/

/-- 8 little-endian bytes of a 64-bit word (`u64::to_le_bytes`). -/
def le64 (x : UInt64) : List Byte := leBytes 8 x.toNat

/-- `Key::for_path::<T>(path)` / `Key::for_owned_schema_path(path, ty)`. -/
def key (path : List Byte) (s : Schema) : List Byte :=
  le64 (fnv1a (path ++ stream s))

end Spec
end Postcard
