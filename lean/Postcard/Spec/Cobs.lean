import Postcard.Model.Basic
/-
  Postcard.Spec.Cobs — Consistent Overhead Byte Stuffing, the REFERENCE
  algorithm, transcribed from the definition (Cheshire & Baker, "Consistent
  Overhead Byte Stuffing", IEEE/ACM ToN 7(2), 1999) and NOT from the structure
  of the `cobs` crate: no encoder state machine, no indices, no in-place
  buffer.

  A message is cut into blocks.  A block is a run of non-zero bytes that is
  closed EITHER by a zero byte of the message (code = run length + 1, the zero
  itself is not transmitted: it is implied by the code), OR by reaching 254
  non-zero bytes (code 0xFF, no implied zero).  The end of the message closes
  the final block like a zero would ("phantom zero"), and the final block is
  always emitted — also directly after a 0xFF block.  Hence `[] ↦ [1]` and 254
  non-zero bytes `d ↦ 0xFF :: d ++ [1]` (which is what the crate produces; the
  paper allows dropping that trailing `[1]`, the decoder below accepts both).

  The `example`s at the bottom are tests of the transcription.
-/
namespace Postcard.Spec
open Postcard

/-- `cobsEncodeGo run m`: `run` is the current (still open) zero-free run,
`|run| ≤ 253`; `m` is the rest of the message. -/
def cobsEncodeGo (run : List Byte) : List Byte → List Byte
  | [] => UInt8.ofNat (run.length + 1) :: run
  | b :: m =>
    if b = 0 then UInt8.ofNat (run.length + 1) :: run ++ cobsEncodeGo [] m
    else if run.length = 253 then 0xFF :: (run ++ [b]) ++ cobsEncodeGo [] m
    else cobsEncodeGo (run ++ [b]) m

/-- the COBS frame body of message `m` (without the `0x00` frame delimiter). -/
def cobsEncode (m : List Byte) : List Byte := cobsEncodeGo [] m

/-- a complete frame: body followed by the delimiter. -/
def cobsFrame (m : List Byte) : List Byte := cobsEncode m ++ [0]

/-- number of blocks closed by length (code 0xFF), i.e. the number of maximal
zero-free stretches of 254 bytes counted from the last zero / block boundary;
`k` = length of the currently open run. -/
def fullBlocksGo (k : Nat) : List Byte → Nat
  | [] => 0
  | b :: m =>
    if b = 0 then fullBlocksGo 0 m
    else if k = 253 then fullBlocksGo 0 m + 1
    else fullBlocksGo (k + 1) m

/-- number of full (254 data bytes, code 0xFF) blocks of message `m`. -/
def fullBlocks (m : List Byte) : Nat := fullBlocksGo 0 m

/-- Decoder for a frame body `f` (the bytes strictly before the delimiter, so
`f` is zero-free).  A block is `code :: data` with `|data| = code − 1`; after
the data an implied zero follows unless `code = 0xFF` or the body ends here.
`none` when a code byte points past the end of the body (or — outside the
intended domain — when a code byte is `0`).  `fuel` only makes the recursion
structural; `cobsDecode` supplies enough. -/
def cobsDecodeAux : Nat → List Byte → Option (List Byte)
  | 0, _ => none
  | _ + 1, [] => some []
  | fuel + 1, c :: rest =>
    if c = 0 then none
    else if rest.length < c.toNat - 1 then none
    else
      let data := rest.take (c.toNat - 1)
      let tl := rest.drop (c.toNat - 1)
      match cobsDecodeAux fuel tl with
      | none => none
      | some out => some (data ++ (if c ≠ 0xFF ∧ tl ≠ [] then [0] else []) ++ out)

def cobsDecode (f : List Byte) : Option (List Byte) := cobsDecodeAux (f.length + 1) f

/-- "some code byte points past the end of the body". -/
inductive CodeOverrun : List Byte → Prop
  | here {c : Byte} {rest : List Byte} : rest.length < c.toNat - 1 → CodeOverrun (c :: rest)
  | later {c : Byte} {rest : List Byte} : c.toNat - 1 ≤ rest.length →
      CodeOverrun (rest.drop (c.toNat - 1)) → CodeOverrun (c :: rest)

/-! ### tests of the transcription (hand-computed / Wikipedia COBS examples) -/
example : cobsEncode [] = [1] := by decide
example : cobsEncode [0] = [1, 1] := by decide
example : cobsEncode [0, 0] = [1, 1, 1] := by decide
example : cobsEncode [0, 0x11, 0] = [1, 2, 0x11, 1] := by decide
example : cobsEncode [0x11, 0x22, 0x00, 0x33] = [3, 0x11, 0x22, 2, 0x33] := by decide
example : cobsEncode [0x11, 0x22, 0x33, 0x44] = [5, 0x11, 0x22, 0x33, 0x44] := by decide
example : cobsEncode [0x11, 0, 0, 0] = [2, 0x11, 1, 1, 1] := by decide
example : cobsDecode [] = some [] := by decide
example : cobsDecode [1] = some [] := by decide
example : cobsDecode [1, 1] = some [0] := by decide
example : cobsDecode [3, 0x11, 0x22, 2, 0x33] = some [0x11, 0x22, 0x00, 0x33] := by decide
example : cobsDecode [2, 0x11, 1, 1, 1] = some [0x11, 0, 0, 0] := by decide
example : cobsDecode [3, 0x11] = none := by decide
example : cobsDecode [1, 5, 1, 1] = none := by decide
-- 254 non-zero bytes: code 0xFF, then the (always emitted) closing block `[1]`
example : cobsEncode (List.replicate 254 7) = 0xFF :: List.replicate 254 7 ++ [1] := by decide +kernel
example : cobsEncode (List.replicate 255 7) = 0xFF :: List.replicate 254 7 ++ [2, 7] := by decide +kernel
example : cobsDecode (0xFF :: List.replicate 254 7 ++ [1]) = some (List.replicate 254 7) := by
  decide +kernel
example : cobsDecode (0xFF :: List.replicate 254 7) = some (List.replicate 254 7) := by
  decide +kernel
example : fullBlocks (List.replicate 254 7) = 1 := by decide +kernel

end Postcard.Spec
